"""Obligation bookkeeping, evidence files, known findings, exit codes."""
import hashlib
import json
import os
import sys
import time

from .facts import VERIF, REPO, relpath

KNOWN_FINDINGS = os.path.join(VERIF, 'known_findings.json')
EVIDENCE_DIR = os.path.join(VERIF, 'evidence')


class Obligation:
    __slots__ = ('rule', 'key', 'ok', 'where', 'function', 'detail', 'nontrivial', 'variant', 'how')

    def __init__(self, rule, key, ok, where, function, detail, nontrivial, variant, how):
        self.rule = rule
        self.key = key
        self.ok = ok
        self.where = where
        self.function = function
        self.detail = detail
        self.nontrivial = nontrivial
        self.variant = variant
        self.how = how

    def as_dict(self):
        return {'rule': self.rule, 'key': self.key, 'ok': self.ok, 'where': self.where,
                'function': self.function, 'detail': self.detail, 'variant': self.variant,
                'discharged_by': self.how}


class Check:
    def __init__(self, pid, tier='quick', seed=0, level='other'):
        self.pid = pid
        self.tier = tier
        self.seed = seed
        self.level = level
        self.obls = []
        self.t0 = time.time()
        self.analysed = {}      # free-form counters: units, functions, call sites …
        self.rules = {}         # rule id -> description
        self.floors = {}        # rule id -> minimum number of instances
        self.assumptions = []
        self.not_decided = []
        self.exceptions_used = []
        self.notes = []
        self.variant = 'as-configured'
        self.explanation = ''
        self.trusted_base = []
        self.extra = {}

    # ---- recording ---------------------------------------------------------------
    def rule(self, rid, text, floor=1):
        self.rules[rid] = text
        self.floors[rid] = floor

    def ob(self, rule, key, ok, where='', function='', detail='', nontrivial=True, how=''):
        """record one obligation.  key must be stable under unrelated edits (no line
        numbers)."""
        assert rule in self.rules, rule
        self.obls.append(Obligation(rule, key, bool(ok), where, function, '' if ok else detail, nontrivial,
                                    self.variant, how))
        return bool(ok)

    def count(self, name, n):
        self.analysed[name] = self.analysed.get(name, 0) + n

    # ---- finishing ---------------------------------------------------------------
    def finish(self):
        from .facts import AnalysisBroken
        # vacuity floors (a rule that found violations is not vacuous: report those instead)
        has_failed = any(not o.ok for o in self.obls)
        relaxed = bool(os.environ.get('VERIF_VARIANT'))   # floors are calibrated on (and enforced for) the as-configured build
        for rid, floor in ([] if (has_failed or relaxed) else self.floors.items()):
            n = sum(1 for o in self.obls if o.rule == rid)
            if n < floor:
                raise AnalysisBroken('rule %s matched %d instance(s), floor is %d — the rule '
                                     'would pass vacuously' % (rid, n, floor))
        known = load_known()
        mine = [k for k in known.get('findings', []) if k['property'] == self.pid]
        failed = [o for o in self.obls if not o.ok]
        matched, unlisted = [], []
        seen_keys = set()
        for o in failed:
            fk = (o.rule, o.key)
            hit = None
            for k in mine:
                if k['rule'] == o.rule and k['key'] == o.key:
                    hit = k
            if hit is not None:
                if fk not in seen_keys:
                    matched.append((o, hit))
            else:
                if fk not in seen_keys:
                    unlisted.append(o)
            seen_keys.add(fk)
        os.makedirs(EVIDENCE_DIR, exist_ok=True)
        vio_dir = os.path.join(EVIDENCE_DIR, 'violations')
        lines = []
        for o, k in matched:
            lines.append('KNOWN-FINDING: property=%s %s [%s %s at %s in %s]' % (
                self.pid, k['what'], o.rule, o.key, o.where, o.function))
        replay_paths = []
        for o in unlisted:
            os.makedirs(vio_dir, exist_ok=True)
            h = hashlib.sha1(('%s|%s|%s' % (self.pid, o.rule, o.key)).encode()).hexdigest()[:12]
            path = os.path.join(vio_dir, '%s-%s.json' % (self.pid, h))
            with open(path, 'w') as f:
                json.dump({'property': self.pid, 'rule': o.rule, 'rule_text': self.rules[o.rule],
                           'key': o.key, 'where': o.where, 'function': o.function,
                           'detail': o.detail, 'variant': o.variant, 'repo': REPO}, f, indent=1)
            replay_paths.append(path)
            print('  violated: rule %s (%s)\n    instance: %s\n    at %s in %s [variant %s]\n    %s' % (
                o.rule, self.rules[o.rule], o.key, o.where, o.function, o.variant, o.detail))
            lines.append('VIOLATION property=%s replay=%s' % (self.pid, path))
        self._write_evidence(matched, unlisted)
        for l in lines:
            print(l)
        nobl = len(self.obls)
        print('%s: %d obligations over %d rules, %d discharged, %d known finding(s), %d violation(s) '
              '[tier %s, %.1fs]' % (self.pid, nobl, len(self.rules), nobl - len(failed),
                                    len(matched), len(unlisted), self.tier, time.time() - self.t0))
        return 1 if unlisted else 0

    def _write_evidence(self, matched, unlisted):
        distinct = {}
        for o in self.obls:
            if o.nontrivial:
                distinct[(o.rule, o.key, o.variant)] = o
        per_rule = {}
        for o in self.obls:
            r = per_rule.setdefault(o.rule, {'text': self.rules[o.rule], 'instances': 0,
                                             'discharged': 0, 'floor': self.floors[o.rule]})
            r['instances'] += 1
            r['discharged'] += 1 if o.ok else 0
        # samples: a spread over the rules, failed ones first
        samples = [o.as_dict() for o in self.obls if not o.ok][:10]
        seen_rules = set()
        for o in self.obls:
            if o.ok and o.rule not in seen_rules:
                seen_rules.add(o.rule)
                samples.append(o.as_dict())
        for o in self.obls:
            if len(samples) >= 40:
                break
            if o.ok and o.nontrivial and o.as_dict() not in samples:
                samples.append(o.as_dict())
        cov = {
            'evaluations': len(self.obls),
            'distinct_nontrivial': len(distinct),
            'rule': 'one evaluation = one rule instance (obligation) generated from a construct of '
                    "/repo's current source; distinct = distinct (rule, instance key, build variant); "
                    'non-trivial = discharging it needed a path argument, a resolved call/data '
                    'dependence or a derived fact (instances that hold by mere presence of a '
                    'declaration are counted as trivial)',
            'samples': samples,
            'obligations': len(self.obls),
            'discharged': sum(1 for o in self.obls if o.ok),
            'checker_cmd': './check %s --tier %s' % (self.pid, self.tier),
            'trusted_base': self.trusted_base or [
                'clang 14 front end (parser, type checker, CFG builder) via /verif/engine/extractor',
                'the python rule engine under /verif/engine and /verif/rules',
                'Makefile.am-derived compile flags and scope (no make run)'],
            'explanation': self.explanation,
            'exhaustive': True,
            'analysed': self.analysed,
            'rules': per_rule,
            'not_decided': self.not_decided,
            'exceptions_used': self.exceptions_used,
            'known_findings_matched': [{'rule': o.rule, 'key': o.key, 'where': o.where,
                                        'what': k['what']} for o, k in matched],
            'violations': [o.as_dict() for o in unlisted],
            'notes': self.notes,
        }
        cov.update(self.extra)
        ev = {
            'property_id': self.pid,
            'tier': self.tier,
            'seed': int(self.seed),
            'level': self.level,
            'coverage': cov,
            'assumptions': self.assumptions,
            'wall_s': round(time.time() - self.t0, 3),
            'violations': len(unlisted),
        }
        with open(os.path.join(EVIDENCE_DIR, '%s.json' % self.pid), 'w') as f:
            json.dump(ev, f, indent=1, sort_keys=False)
            f.write('\n')


def load_known():
    if not os.path.exists(KNOWN_FINDINGS):
        return {'findings': [], 'fixed': []}
    with open(KNOWN_FINDINGS) as f:
        return json.load(f)
