"""A10: printf-format interpretation."""
import re

from .facts import strip

# function name -> index of the format parameter
PRINTF_FAMILY = {'printf': 0, 'fprintf': 1, 'dprintf': 1, 'sprintf': 1, 'snprintf': 2, 'syslog': 1,
                 'vprintf': 0, 'vfprintf': 1, 'vsnprintf': 2, 'vsprintf': 1,
                 '__builtin_snprintf': 2, '__builtin_sprintf': 1, '__builtin_printf': 0,
                 '__builtin_fprintf': 1}
SCANF_FAMILY = {'scanf': 0, 'sscanf': 1, 'fscanf': 1}

_conv = re.compile(r'%(?P<flags>[-+ #0]*)(?P<width>\*|\d+)?(?:\.(?P<prec>\*|\d+))?'
                   r'(?P<len>hh|h|ll|l|L|q|j|z|t)?(?P<conv>[diouxXeEfFgGaAcspn%m])')


def unescape(s):
    """undo the extractor's escaping (\\xNN and \\\\)."""
    out = []
    i = 0
    while i < len(s):
        if s[i] == '\\' and i + 1 < len(s):
            if s[i + 1] == '\\':
                out.append('\\')
                i += 2
                continue
            if s[i + 1] == 'x' and i + 3 < len(s):
                out.append(chr(int(s[i + 2:i + 4], 16)))
                i += 4
                continue
        out.append(s[i])
        i += 1
    return ''.join(out)


def parse_printf(fmt):
    """-> list of ('lit', text) / ('conv', dict(flags,width,prec,len,conv,nargs))"""
    toks = []
    pos = 0
    while pos < len(fmt):
        j = fmt.find('%', pos)
        if j < 0:
            toks.append(('lit', fmt[pos:]))
            break
        if j > pos:
            toks.append(('lit', fmt[pos:j]))
        m = _conv.match(fmt, j)
        if not m:
            toks.append(('bad', fmt[j:]))
            break
        d = m.groupdict()
        if d['conv'] == '%':
            toks.append(('lit', '%'))
        else:
            n = 1 if d['conv'] != 'm' else 0
            if d['width'] == '*':
                n += 1
            if d['prec'] == '*':
                n += 1
            d['nargs'] = n
            toks.append(('conv', d))
        pos = m.end()
    # merge adjacent literals
    out = []
    for t in toks:
        if t[0] == 'lit' and out and out[-1][0] == 'lit':
            out[-1] = ('lit', out[-1][1] + t[1])
        else:
            out.append(t)
    return out


def call_format(call):
    """for a printf-family call: (format string or None, index of first variadic
    argument, tokens or None)"""
    name = call.get('callee')
    if name not in PRINTF_FAMILY:
        return None
    fi = PRINTF_FAMILY[name]
    args = call.ch[1:]
    if fi >= len(args):
        return None
    f = strip(args[fi])
    if f is None or f.k != 'StringLiteral':
        return (None, fi + 1, None)
    s = unescape(f.get('s', ''))
    return (s, fi + 1, parse_printf(s))


def variadic_bindings(call):
    """list of (arg node, conversion dict, role) for the variadic arguments of a
    printf-family call with a literal format; role in {'value','width','prec'}.
    None if the format is not a literal."""
    cf = call_format(call)
    if cf is None or cf[2] is None:
        return None
    s, first, toks = cf
    args = call.ch[1:]
    i = first
    out = []
    for t in toks:
        if t[0] != 'conv':
            continue
        d = t[1]
        if d['width'] == '*':
            if i < len(args):
                out.append((args[i], d, 'width'))
            i += 1
        if d['prec'] == '*':
            if i < len(args):
                out.append((args[i], d, 'prec'))
            i += 1
        if d['conv'] != 'm':
            if i < len(args):
                out.append((args[i], d, 'value'))
            i += 1
    return out
