"""Inlined views: a function with the bodies of the file-local (static) functions it calls spliced in, as a
new Function object over the same fact format (AST node table + CFG).  A maintainer who splits a function into
static helpers does not change what it does; rules that are written about ONE function (its paths, its buffers,
its copies) can look at the inlined view and see the same statements again, whatever the split.

What the view contains for a call `x = h(a, b)` of a file-local h:
  * one DeclStmt per parameter of h, initialised with the argument expression (the former parameters are plain
    local variables of the view: ref.kind 'var');
  * h's body, its nodes renumbered, its locals given fresh declaration ids (two inlined calls do not share them);
  * every `return e;` of h rewritten as `__ret_h = e;` followed by a jump behind the call; the call expression
    itself becomes a read of `__ret_h`;
  * in the CFG the block holding the call is split at the call: [before + bindings] -> h's blocks -> [after].
Calls nested in h are expanded in turn, up to a fixed number of expansions; recursive helpers are left as calls.
The view keeps the name, parameters and translation unit of the outer function."""
import copy

from .facts import Function

NODE_ID_KEYS = ('cond', 'then', 'else', 'body', 'init', 'inc')
MAX_EXPANSIONS = 24
_DECL_BASE = [50_000_000]


def _subtree(nodes, nid, out=None):
    out = out if out is not None else set()
    if nid in out or nid == -1 or nid not in nodes:
        return out
    out.add(nid)
    for c in nodes[nid].get('ch', []):
        _subtree(nodes, c, out)
    return out


def _own_decls(h):
    ids = {p['id'] for p in h['params']}
    for n in h['nodes'].values():
        if n['k'] == 'DeclStmt':
            for d in n.get('decls', []):
                if not d.get('staticLocal') and not d.get('staticStorage'):
                    ids.add(d['id'])
    return ids


def _expand_once(prog, tu, d, stack, done_names, keep=()):
    """inline one call of a file-local function into the function dict d (in place); True if something was done"""
    nodes = d['nodes']
    target = None
    for nid in sorted(nodes, key=int):
        n = nodes[nid]
        if n['k'] != 'CallExpr' or not n.get('callee') or n.get('_noinline'):
            continue
        H = prog.func(n['callee'], tu)
        if H is None or not H.internal or H.cfg_error or H.d.get('variadic') or H.name == d['name'] or H.name in stack or \
                H.name in keep:
            continue
        if any(c.get('callee') == H.name for c in H.calls()) or H.name in n.get('_chain', ()):
            n['_noinline'] = True       # recursive, directly or through what was already expanded here
            continue
        target = (nid, n, H)
        break
    if target is None:
        return False
    cid, cnode, H = target
    h = copy.deepcopy(H.d)
    hn = {int(k): v for k, v in h['nodes'].items()}
    off = max(int(k) for k in nodes) + 1
    m = lambda i: (i + off) if isinstance(i, int) and i != -1 else i
    own = _own_decls(h)
    dmap = {}
    for i in sorted(own):
        _DECL_BASE[0] += 1
        dmap[i] = _DECL_BASE[0]
    param_ids = {p['id'] for p in h['params']}
    # ---- copy h's nodes --------------------------------------------------------------------------
    for k, v in hn.items():
        v = dict(v)
        v['ch'] = [m(c) for c in v.get('ch', [])]
        for key in NODE_ID_KEYS:
            if isinstance(v.get(key), int):
                v[key] = m(v[key])
        if v['k'] == 'DeclStmt':
            nd = []
            for dd in v.get('decls', []):
                dd = dict(dd)
                if dd['id'] in dmap:
                    dd['id'] = dmap[dd['id']]
                if isinstance(dd.get('init'), int) and dd['init'] != -1:
                    dd['init'] = m(dd['init'])
                nd.append(dd)
            v['decls'] = nd
        if 'ref' in v and isinstance(v['ref'], dict) and v['ref'].get('id') in dmap and v['ref'].get('kind') in ('var', 'parm'):
            r = dict(v['ref'])
            r['id'] = dmap[r['id']]
            if r.get('kind') == 'parm':
                r['kind'] = 'var'
                r.pop('index', None)
            v['ref'] = r
        v['_inl'] = H.name
        v['_chain'] = list(cnode.get('_chain', ())) + [H.name]
        nodes[k + off] = v
    nxt = [max(int(k) for k in nodes) + 1]

    def new_node(dd):
        i = nxt[0]
        nxt[0] += 1
        dd.setdefault('ch', [])
        dd.setdefault('line', cnode.get('line', 0))
        dd.setdefault('eline', cnode.get('eline', cnode.get('line', 0)))
        dd.setdefault('col', cnode.get('col', 0))
        dd['_inl'] = H.name
        nodes[i] = dd
        return i
    # ---- parameter bindings ----------------------------------------------------------------------
    args = cnode['ch'][1:]
    binds = []
    for i, p in enumerate(h['params']):
        a = args[i] if i < len(args) else -1
        decl = {'id': dmap[p['id']], 'name': p['name'], 'ct': p.get('ct'), 't': p.get('t'), 'init': a, 'isDef': True,
                'staticLocal': False, 'staticStorage': False, 'fileScope': False, 'storage': 'none', 'sys': False,
                'line': cnode.get('line', 0), '_param_of': H.name, '_param_index': i}
        binds.append(new_node({'k': 'DeclStmt', 'ch': [a] if a != -1 else [], 'decls': [decl]}))
    # ---- parameters bound to &lvalue and never changed: *param IS that lvalue --------------------------
    # (an out-parameter, a field handed to a "reset this string" helper): the dereferences are rewritten to the
    # lvalue itself, so that rules which look for stores into CFG->field or into a caller's variable see them
    def _clone(nid):
        src_ = nodes[nid]
        c_ = dict(src_)
        c_['ch'] = [_clone(x) if x != -1 else -1 for x in src_.get('ch', [])]
        i_ = nxt[0]
        nxt[0] += 1
        c_['_inl'] = H.name
        nodes[i_] = c_
        return i_

    def _skip_casts(nid):
        while nid in nodes and nodes[nid]['k'] in ('ImplicitCastExpr', 'ParenExpr', 'CStyleCastExpr') and nodes[nid].get('ch'):
            nid = nodes[nid]['ch'][0]
        return nid
    for i, p in enumerate(h['params']):
        if i >= len(args) or args[i] == -1:
            continue
        an = _skip_casts(args[i])
        a_ = nodes.get(an)
        if a_ is None or a_['k'] != 'UnaryOperator' or a_.get('op') != '&' or not a_.get('ch'):
            continue
        lv = _skip_casts(a_['ch'][0])
        if nodes[lv]['k'] not in ('MemberExpr', 'DeclRefExpr', 'ArraySubscriptExpr'):
            continue
        newid = dmap[p['id']]
        # the parameter itself must never be assigned or stepped in the helper
        changed_ = False
        for k in hn:
            v = nodes[k + off]
            if v['k'] in ('BinaryOperator', 'CompoundAssignOperator') and (v.get('op') == '=' or v['k'] == 'CompoundAssignOperator') \
                    or (v['k'] == 'UnaryOperator' and v.get('op') in ('++', '--')):
                t_ = nodes.get(_skip_casts(v['ch'][0]))
                if t_ is not None and t_['k'] == 'DeclRefExpr' and t_.get('ref', {}).get('id') == newid:
                    changed_ = True
        if changed_:
            continue
        for k in hn:
            v = nodes[k + off]
            if v['k'] == 'UnaryOperator' and v.get('op') == '*' and v.get('ch'):
                t_ = nodes.get(_skip_casts(v['ch'][0]))
                if t_ is not None and t_['k'] == 'DeclRefExpr' and t_.get('ref', {}).get('id') == newid:
                    c_id = _clone(lv)
                    keep_ = {kk: v[kk] for kk in ('line', 'eline', 'col', '_chain') if kk in v}
                    repl = dict(nodes[c_id])
                    repl.update(keep_)
                    repl['_inl'] = H.name
                    repl['_deref_of_param'] = p['name']
                    v.clear()
                    v.update(repl)
    # ---- result variable -------------------------------------------------------------------------
    ret_ct = h.get('retCanon') or h.get('ret') or 'void'
    is_void = ret_ct.strip() == 'void'
    rid = None
    extra_stmts = list(binds)
    if not is_void:
        _DECL_BASE[0] += 1
        rid = _DECL_BASE[0]
        rname = '__ret_%s' % H.name
        rdecl = {'id': rid, 'name': rname, 'ct': ret_ct, 't': h.get('ret') or ret_ct, 'init': -1, 'isDef': True,
                 'staticLocal': False, 'staticStorage': False, 'fileScope': False, 'storage': 'none', 'sys': False,
                 'line': cnode.get('line', 0)}
        rd = new_node({'k': 'DeclStmt', 'decls': [rdecl]})
        extra_stmts.append(rd)
        ref = lambda: {'id': rid, 'kind': 'var', 'name': rname, 'sys': False, 'staticStorage': False, 'fileScope': False,
                       'staticLocal': False}
    # returns of h
    for k in list(hn):
        v = nodes[k + off]
        if v['k'] != 'ReturnStmt':
            continue
        if v.get('ch') and not is_void:
            lhs = new_node({'k': 'DeclRefExpr', 'ref': ref(), 'ct': ret_ct, 't': ret_ct, 'lv': True})
            v.update({'k': 'BinaryOperator', 'op': '=', 'ch': [lhs, v['ch'][0]], 'ct': ret_ct, 't': ret_ct, 'lv': False,
                      '_was_return': True})
        else:
            v.update({'k': 'NullStmt', 'ch': [], '_was_return': True})
    # ---- AST: where the statements live ------------------------------------------------------------
    hbody = m(h['body'])
    callee_sub = _subtree(nodes, cnode['ch'][0]) if cnode.get('ch') else set()
    k_node = new_node({'k': 'CompoundStmt', 'ch': extra_stmts + [hbody]})
    # the call expression becomes a read of the result (or an empty statement)
    old_call = dict(cnode)
    if is_void:
        cnode.clear()
        cnode.update({'k': 'NullStmt', 'ch': [], 'line': old_call.get('line', 0), 'eline': old_call.get('eline', 0),
                      'col': old_call.get('col', 0), '_inl_call': H.name})
    else:
        rr = new_node({'k': 'DeclRefExpr', 'ref': ref(), 'ct': ret_ct, 't': ret_ct, 'lv': True})
        cnode.clear()
        cnode.update({'k': 'ImplicitCastExpr', 'cast': 'LValueToRValue', 'ch': [rr], 'ct': old_call.get('ct', ret_ct),
                      't': old_call.get('t', ret_ct), 'lv': False, 'line': old_call.get('line', 0),
                      'eline': old_call.get('eline', 0), 'col': old_call.get('col', 0), '_inl_call': H.name})
    body = nodes[d['body']]
    body['ch'] = [k_node] + list(body.get('ch', []))
    # ---- CFG ---------------------------------------------------------------------------------------
    blocks = d['cfg']['blocks']
    B = None
    for b in blocks:
        if cid in b['elems']:
            B = b
            break
    if B is None:
        # the call is not an element of any block (unreachable code): leave the AST rewrite, nothing to splice
        return True
    i = B['elems'].index(cid)
    boff = max(b['id'] for b in blocks) + 1
    hb = h['cfg']['blocks']
    post_id = boff + max(b['id'] for b in hb) + 1
    post = {'id': post_id, 'elems': ([] if is_void else [cid]) + B['elems'][i + 1:], 'succs': B['succs'],
            'succUnreachable': B.get('succUnreachable', [False] * len(B['succs'])), 'noReturn': B.get('noReturn', False)}
    for key in ('term', 'termKind', 'cond', 'loopTarget'):
        if key in B:
            post[key] = B.pop(key)
    if not is_void:
        post['elems'] = [nodes[cid]['ch'][0], cid] + B['elems'][i + 1:]
    pre_elems = [e for e in B['elems'][:i] if e not in callee_sub] + extra_stmts
    B['elems'] = pre_elems
    B['succs'] = [h['cfg']['entry'] + boff]
    B['succUnreachable'] = [False]
    B['noReturn'] = False
    for b in hb:
        nb = {'id': b['id'] + boff, 'elems': [m(e) for e in b['elems']],
              'succs': [(s + boff) if s is not None else None for s in b['succs']],
              'succUnreachable': list(b.get('succUnreachable', [False] * len(b['succs']))), 'noReturn': b.get('noReturn', False)}
        for key in ('term', 'cond', 'label', 'loopTarget'):
            if key in b:
                nb[key] = m(b[key])
        if 'termKind' in b:
            nb['termKind'] = b['termKind']
        if b['id'] == h['cfg']['exit']:
            nb['succs'] = [post_id]
            nb['succUnreachable'] = [False]
        blocks.append(nb)
    blocks.append(post)
    done_names.append(H.name)
    return True


def inlined(prog, func, keep=()):
    """the inlined view of func (func itself when it calls no file-local function or has no CFG); calls of the
    functions named in `keep` stay calls"""
    cache = prog.__dict__.setdefault('_inlined', {})
    ckey = (func.key, tuple(sorted(keep)))
    if ckey in cache:
        return cache[ckey]
    cache[ckey] = func
    if func.cfg_error or not any(
            (prog.func(c.get('callee'), func.tu) is not None and prog.func(c.get('callee'), func.tu).internal and
             prog.func(c.get('callee'), func.tu) is not func) for c in func.calls() if c.get('callee')):
        return func
    d = copy.deepcopy(func.d)
    d['nodes'] = {int(k): v for k, v in d['nodes'].items()}
    done = []
    n = 0
    while n < MAX_EXPANSIONS and _expand_once(prog, func.tu, d, (func.name,), done, keep):
        n += 1
    if not done:
        return func
    d['nodes'] = {str(k): v for k, v in d['nodes'].items()}
    try:
        g = Function(d, func.tu)
    except Exception:
        return func
    g.inlined_from = done
    g.original = func
    cache[ckey] = g
    return g
