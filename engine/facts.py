"""Compile database (from Makefile.am, no make), build variants, fact extraction,
program model.  Standard library only."""
import json
import os
import re
import shutil
import subprocess
import sys
import tempfile
from concurrent.futures import ThreadPoolExecutor

VERIF = os.path.dirname(os.path.dirname(os.path.abspath(__file__)))
REPO = os.environ.get('VERIF_REPO', '/repo')
EXTRACTOR = os.path.join(VERIF, 'build', 'snoopfacts')


class AnalysisBroken(Exception):
    """Raised when the analysis cannot be carried out (exit 2): missing anchor,
    unresolved construct, vacuous rule.  Never a pass, never a violation."""


# --------------------------------------------------------------------------
# Makefile.am parsing
# --------------------------------------------------------------------------
def _logical_lines(text):
    out, cur = [], ''
    for raw in text.split('\n'):
        line = raw
        if cur:
            line = cur + ' ' + line.strip()
            cur = ''
        if line.rstrip().endswith('\\'):
            cur = line.rstrip()[:-1]
            continue
        out.append(line)
    if cur:
        out.append(cur)
    return out


class MakefileAm:
    """One Makefile.am: variables with the automake conditionals under which each
    word was added."""

    def __init__(self, path):
        self.path = path
        self.dir = os.path.dirname(path)
        self.vars = {}  # name -> list of (cond tuple, word)
        cond = []
        for line in _logical_lines(open(path).read()):
            s = line.strip()
            if not s or s.startswith('#'):
                continue
            m = re.match(r'^if\s+(!?)(\w+)$', s)
            if m:
                cond.append((m.group(2), m.group(1) != '!'))
                continue
            if s == 'else':
                n, v = cond.pop()
                cond.append((n, not v))
                continue
            if s.startswith('endif'):
                cond.pop()
                continue
            m = re.match(r'^([A-Za-z_][\w]*)\s*(\+?=)\s*(.*)$', s)
            if m:
                name, op, val = m.groups()
                words = _split_words(val)
                if op == '=':
                    self.vars[name] = []
                lst = self.vars.setdefault(name, [])
                for w in words:
                    lst.append((tuple(cond), w))

    def get(self, name, active):
        """words of variable `name` whose conditionals hold under `active`
        (callable cond name -> bool)."""
        out = []
        for cond, w in self.vars.get(name, []):
            if all(active(n) == v for n, v in cond):
                out.append(w)
        return out


def _split_words(val):
    # shell-like split honouring single quotes (used for '-DINI_API=...')
    words, cur, q = [], '', None
    for ch in val:
        if q:
            if ch == q:
                q = None
            else:
                cur += ch
        elif ch in '\'"':
            q = ch
        elif ch.isspace():
            if cur:
                words.append(cur)
                cur = ''
        else:
            cur += ch
    if cur:
        words.append(cur)
    return words


def _canon(name):
    return re.sub(r'[^A-Za-z0-9_]', '_', name)


def config_macros(config_h):
    macros = {}
    for line in open(config_h):
        m = re.match(r'^\s*#\s*define\s+(\w+)(?:\s+(.*))?$', line.rstrip('\n'))
        if m:
            macros[m.group(1)] = (m.group(2) or '').strip()
    return macros


class BuildModel:
    """What is compiled with which flags and linked into which artefact, read from
    the Makefile.am files of the repository."""

    def __init__(self, repo=None):
        self.repo = repo or REPO
        self.config_h = os.path.join(self.repo, 'config.h')
        if not os.path.exists(self.config_h):
            raise AnalysisBroken('config.h missing in %s (tree not configured)' % self.repo)
        self.mk = {}
        for sub in ['src', 'src/util', 'src/action', 'src/cli', 'src/entrypoint',
                    'src/datasource', 'src/filter', 'src/output', 'lib/inih/src']:
            p = os.path.join(self.repo, sub, 'Makefile.am')
            if os.path.exists(p):
                self.mk[sub] = MakefileAm(p)
        common = os.path.join(self.repo, 'build', 'Makefile.am.common')
        self.common = MakefileAm(common)

    def _include_deps(self):
        """DATASOURCE_INCLUDE_x automake conditionals have no config.h macro; they are
        switched on by the data sources that name them in configure.ac."""
        deps = {}
        try:
            txt = open(os.path.join(self.repo, 'configure.ac')).read()
        except OSError:
            return deps
        for m in re.finditer(r'SNOOPY_CONFIGURE_DATASOURCE_\w+\(\s*\[(\w+)\]\s*,\s*\[[^\]]*\]\s*,\s*\[(INCLUDE_\w+)\]', txt):
            deps.setdefault('DATASOURCE_' + m.group(2), []).append(
                'SNOOPY_CONF_DATASOURCE_ENABLED_' + m.group(1))
        return deps

    def active_fn(self, macros):
        deps = self._include_deps()

        def active(cond):
            if cond in deps:
                return any(d in macros for d in deps[cond])
            return ('SNOOPY_CONF_' + cond) in macros
        return active

    def cflags(self, sub, macros):
        active = self.active_fn(macros)
        flags = []
        for w in self.common.get('AM_CFLAGS', active) + \
                [w for c, w in self.mk[sub].vars.get('AM_CFLAGS', []) if all(active(n) == v for n, v in c)]:
            w = w.replace('$(top_srcdir)', self.repo)
            if w.startswith('-W'):
                continue
            flags.append(w)
        # automake's DEFS and default includes
        return ['-DHAVE_CONFIG_H'] + flags

    def artefacts(self, macros):
        """{artefact name: {'dir':sub, 'sources':[abs .c], 'libs':[artefact names]}}"""
        active = self.active_fn(macros)
        arts = {}
        for sub, mk in self.mk.items():
            names = []
            for var in ('noinst_LTLIBRARIES', 'lib_LTLIBRARIES', 'sbin_PROGRAMS',
                        'bin_PROGRAMS', 'noinst_PROGRAMS'):
                names += mk.get(var, active)
            for n in names:
                c = _canon(n)
                srcs = [os.path.normpath(os.path.join(self.repo, sub, w))
                        for w in mk.get(c + '_SOURCES', active) if w.endswith('.c')]
                libs = []
                for var in (c + '_LIBADD', c + '_LDADD'):
                    for w in mk.get(var, active):
                        if w.endswith('.la'):
                            libs.append(os.path.normpath(os.path.join(sub, w)))
                arts[os.path.normpath(os.path.join(sub, n))] = {
                    'dir': sub, 'sources': srcs, 'libs': libs}
        return arts

    def closure(self, art, macros):
        arts = self.artefacts(macros)
        seen, srcs, todo = set(), [], [art]
        while todo:
            a = todo.pop()
            if a in seen:
                continue
            seen.add(a)
            if a not in arts:
                # a library disabled in this variant (e.g. filter/ when filtering is off)
                continue
            srcs += arts[a]['sources']
            todo += arts[a]['libs']
        return sorted(set(srcs))

    def all_sources(self):
        out = []
        for sub in self.mk:
            d = os.path.join(self.repo, sub)
            for f in sorted(os.listdir(d)):
                if f.endswith('.c'):
                    out.append(os.path.join(d, f))
        return out

    def sub_of(self, src):
        rel = os.path.relpath(os.path.dirname(src), self.repo)
        return rel


# --------------------------------------------------------------------------
# Variants (alternative config.h)
# --------------------------------------------------------------------------
class Variant:
    def __init__(self, name, undef=(), define=None):
        self.name = name
        self.undef = set(undef)
        self.define = dict(define or {})


AS_CONFIGURED = Variant('as-configured')
TS_OFF = Variant('ts-off', undef=['SNOOPY_CONF_THREAD_SAFETY_ENABLED',
                                  'SNOOPY_CONF_DATASOURCE_ENABLED_snoopy_threads'])
FILTERING_OFF = Variant('filtering-off', undef=['SNOOPY_CONF_FILTERING_ENABLED'])
CONFIGFILE_OFF = Variant('configfile-off', undef=['SNOOPY_CONF_CONFIGFILE_ENABLED'])


def write_variant_config(bm, variant, outdir):
    """Generate config.h for the variant into outdir; returns the macro dict."""
    lines = []
    macros = {}
    for line in open(bm.config_h):
        m = re.match(r'^\s*#\s*define\s+(\w+)(?:\s+(.*))?$', line.rstrip('\n'))
        if m and m.group(1) in variant.undef:
            lines.append('/* #undef %s (variant %s) */\n' % (m.group(1), variant.name))
            continue
        if m and m.group(1) in variant.define:
            continue
        if m:
            macros[m.group(1)] = (m.group(2) or '').strip()
        lines.append(line)
    for k, v in variant.define.items():
        lines.append('#define %s %s\n' % (k, v))
        macros[k] = str(v)
    os.makedirs(outdir, exist_ok=True)
    with open(os.path.join(outdir, 'config.h'), 'w') as f:
        f.writelines(lines)
    return macros


_resource_dir = None


def resource_dir():
    global _resource_dir
    if _resource_dir is None:
        _resource_dir = subprocess.check_output(['clang-14', '-print-resource-dir'],
                                                text=True).strip()
    return _resource_dir


# --------------------------------------------------------------------------
# Node / Function / Program model
# --------------------------------------------------------------------------
class Node:
    __slots__ = ('id', 'd', 'owner', 'k', 'parent')

    def __init__(self, nid, d, owner):
        self.id = nid
        self.d = d
        self.owner = owner
        self.k = d['k']
        self.parent = None

    def get(self, key, default=None):
        return self.d.get(key, default)

    def __getitem__(self, key):
        return self.d[key]

    def __contains__(self, key):
        return key in self.d

    @property
    def ch(self):
        ns = self.owner.nodes
        return [ns[c] if c != -1 else None for c in self.d['ch']]

    @property
    def line(self):
        return self.d.get('line', 0)

    @property
    def file(self):
        return self.owner.file

    def sub(self, key):
        c = self.d.get(key, -1)
        return self.owner.nodes[c] if c not in (-1, None) else None

    def walk(self):
        yield self
        for c in self.ch:
            if c is not None:
                yield from c.walk()

    def __repr__(self):
        return '<%s#%d %s:%d %s>' % (self.k, self.id, os.path.basename(self.owner.file or ''),
                                     self.line, render(self)[:60])

    def where(self):
        return '%s:%d' % (relpath(self.owner.file), self.line)


def relpath(p, repo=None):
    repo = repo or REPO
    if p and p.startswith(repo + '/'):
        return p[len(repo) + 1:]
    return p


class NodeOwner:
    def _load_nodes(self, nodes):
        self.nodes = {}
        for k, d in nodes.items():
            self.nodes[int(k)] = Node(int(k), d, self)
        for n in self.nodes.values():
            for c in n.d['ch']:
                if c != -1:
                    self.nodes[c].parent = n
            # named sub-statements are also in ch for control statements


class Block:
    __slots__ = ('id', 'elems', 'term', 'termKind', 'cond', 'label', 'succs', 'all_succs',
                 'preds', 'noReturn', 'func')


class Function(NodeOwner):
    def __init__(self, d, tu):
        self.d = d
        self.tu = tu
        self.name = d['name']
        self.file = d['file']
        self.line = d['line']
        self.internal = d['internal']
        self.params = d['params']
        self._load_nodes(d['nodes'])
        self.body = self.nodes[d['body']]
        self.key = (tu.path, self.name) if self.internal else self.name
        self._cfg = None
        self.cfg_error = d['cfg'].get('error')
        self.blocks = {}
        if not self.cfg_error:
            for b in d['cfg']['blocks']:
                B = Block()
                B.func = self
                B.id = b['id']
                B.elems = [self.nodes[e] for e in b['elems']]
                B.term = self.nodes[b['term']] if 'term' in b else None
                B.termKind = b.get('termKind')
                B.cond = self.nodes[b['cond']] if 'cond' in b else None
                # for `if (a || b)` the block that evaluates b has the IfStmt as terminator and
                # clang reports the whole `a || b` as its condition; the value actually branched
                # on is the right-most operand
                if B.cond is not None:
                    c = strip(B.cond, casts=False)
                    elem_ids = {e.id for e in B.elems}
                    while c is not None and c.k == 'BinaryOperator' and c.get('op') in ('&&', '||'):
                        if c.id in elem_ids:
                            # the logical operator itself is evaluated in this block as the join of the short-circuit
                            # paths (clang does this for do-while conditions): the block is also entered when the LEFT
                            # operand decided, so the branch is on the whole expression, not on its right operand
                            break
                        c = strip(c.ch[1], casts=False)
                    B.cond = c
                B.label = self.nodes[b['label']] if 'label' in b else None
                B.all_succs = list(zip(b['succs'], b['succUnreachable']))
                B.succs = [s for s, u in B.all_succs if s is not None and not u]
                B.noReturn = b['noReturn']
                B.preds = []
                self.blocks[B.id] = B
            for B in self.blocks.values():
                for s in B.succs:
                    self.blocks[s].preds.append(B.id)
            self.entry = d['cfg']['entry']
            self.exit = d['cfg']['exit']

    def where(self):
        return '%s:%d' % (relpath(self.file), self.line)

    def calls(self, name=None):
        out = []
        for n in self.body.walk():
            if n.k == 'CallExpr' and (name is None or n.get('callee') == name):
                out.append(n)
        return out

    def walk(self):
        return self.body.walk()

    def local_decls(self):
        out = []
        for n in self.body.walk():
            if n.k == 'DeclStmt':
                out += n['decls']
        return out

    def __repr__(self):
        return '<Function %s %s>' % (self.name, self.where())


class Global(NodeOwner):
    def __init__(self, d, tu):
        self.d = d
        self.tu = tu
        self.name = d['name']
        self.file = d['file']
        self.line = d['line']
        self._load_nodes(d.get('nodes', {}))
        self.init = self.nodes.get(d.get('init', -1))

    def where(self):
        return '%s:%d' % (relpath(self.file), self.line)


class TU:
    def __init__(self, path, d):
        self.path = path
        self.rel = relpath(path)
        self.d = d
        self.functions = [Function(f, self) for f in d['functions']]
        self.globals = [Global(g, self) for g in d['globals']]
        self.records = d['records']
        self.funcDecls = d['funcDecls']
        self.enums = {e['name']: e['v'] for e in d['enums']}


class Program:
    """A set of translation units analysed together (one scope, one variant)."""

    def __init__(self, tus, variant_name, macros, repo=None):
        self.tus = tus
        self.variant = variant_name
        self.macros = macros
        self.repo = repo or REPO
        self.by_path = {t.path: t for t in tus}
        self.functions = []
        self.ext = {}       # externally visible definitions by name
        self.internal = {}  # (tu path, name)
        self.duplicates = []
        for t in tus:
            for f in t.functions:
                self.functions.append(f)
                if f.internal:
                    self.internal[(t.path, f.name)] = f
                else:
                    if f.name in self.ext:
                        self.duplicates.append((f, self.ext[f.name]))
                    self.ext[f.name] = f
        self.records = {}
        for t in tus:
            for r in t.records:
                if r['name']:
                    self.records.setdefault(r['name'], r)

    def tu(self, rel):
        p = os.path.join(self.repo, rel)
        return self.by_path.get(p)

    def func(self, name, tu=None):
        """resolve a function by name as seen from tu (internal first)."""
        if tu is not None:
            f = self.internal.get((tu.path, name))
            if f:
                return f
        return self.ext.get(name)

    def require_func(self, name, rel=None):
        f = None
        if rel:
            t = self.tu(rel)
            if t:
                for g in t.functions:
                    if g.name == name:
                        f = g
        else:
            f = self.ext.get(name)
            if f is None:
                c = [g for g in self.functions if g.name == name]
                if len(c) == 1:
                    f = c[0]
        if f is None:
            raise AnalysisBroken('anchor function %s not found%s (variant %s)' % (
                name, ' in ' + rel if rel else '', self.variant))
        return f

    def global_var(self, name):
        """definition of a global by name (prefers one with an initialiser)."""
        best = None
        for t in self.tus:
            for g in t.globals:
                if g.name == name and g.d.get('isDef'):
                    if best is None or (g.init is not None and best.init is None):
                        best = g
        return best

    def record(self, name):
        return self.records.get(name)


# --------------------------------------------------------------------------
# Extraction
# --------------------------------------------------------------------------
class Workspace:
    """Scratch directory outside /repo and /verif, removed at exit."""

    def __init__(self):
        self.dir = tempfile.mkdtemp(prefix='snoopy-verif-')

    def cleanup(self):
        shutil.rmtree(self.dir, ignore_errors=True)

    def __enter__(self):
        return self

    def __exit__(self, *a):
        self.cleanup()


def extract_sources(bm, sources, variant, ws, extra_flags=(), jobs=16, tag=None):
    """Run snoopfacts over `sources` for `variant`; returns (list of TU, macros)."""
    if not os.path.exists(EXTRACTOR):
        raise AnalysisBroken('extractor not built: run MANIFEST.setup_cmd (%s missing)' % EXTRACTOR)
    vdir = os.path.join(ws.dir, tag or variant.name)
    incdir = os.path.join(vdir, 'include')
    macros = write_variant_config(bm, variant, incdir)
    outdir = os.path.join(vdir, 'facts')
    os.makedirs(outdir, exist_ok=True)

    def one(src):
        sub = bm.sub_of(src)
        out = os.path.join(outdir, re.sub(r'[^A-Za-z0-9_.-]', '_', relpath(src, bm.repo)) + '.json')
        flags = ['-resource-dir', resource_dir(), '-I' + incdir] + bm.cflags(sub, macros) + list(extra_flags)
        cmd = [EXTRACTOR, out, src, '--'] + flags
        p = subprocess.run(cmd, stdout=subprocess.PIPE, stderr=subprocess.PIPE, text=True)
        if p.returncode != 0 or not os.path.exists(out):
            raise AnalysisBroken('extraction failed for %s (variant %s): %s' % (
                relpath(src, bm.repo), variant.name, p.stderr.strip()[-2000:]))
        with open(out) as f:
            d = json.load(f)
        os.unlink(out)
        return TU(src, d)

    with ThreadPoolExecutor(max_workers=jobs) as ex:
        tus = list(ex.map(one, sources))
    return tus, macros


LIB_ARTEFACT = 'src/libsnoopy.la'
CLI_ARTEFACT = 'src/cli/snoopyctl'
TESTCLI_ARTEFACT = 'src/libsnoopy-test-cli.la'


def load_program(bm, ws, variant=AS_CONFIGURED, scope='lib', extra_sources=()):
    macros = write_variant_config(bm, variant, os.path.join(ws.dir, 'probe-' + variant.name))
    if scope == 'lib':
        srcs = bm.closure(LIB_ARTEFACT, macros)
    elif scope == 'cli':
        srcs = bm.closure(CLI_ARTEFACT, macros)
    elif scope == 'all':
        srcs = bm.all_sources()
    else:
        raise ValueError(scope)
    srcs = sorted(set(srcs) | set(extra_sources))
    if not srcs:
        raise AnalysisBroken('no sources found for scope %s' % scope)
    tus, macros = extract_sources(bm, srcs, variant, ws, tag='%s-%s' % (variant.name, scope))
    return Program(tus, variant.name, macros, repo=bm.repo)


# --------------------------------------------------------------------------
# rendering
# --------------------------------------------------------------------------
def render(n, depth=0):
    """C-like text of an expression / statement node, for reports only."""
    if n is None:
        return ''
    if depth > 12:
        return '...'
    k = n.k
    ch = n.ch
    r = lambda c: render(c, depth + 1)
    if k in ('ImplicitCastExpr',):
        return r(ch[0])
    if k == 'ParenExpr':
        return '(' + r(ch[0]) + ')'
    if k == 'CStyleCastExpr':
        return '(%s)%s' % (n.get('castTo', '?'), r(ch[0]))
    if k == 'DeclRefExpr':
        return n['ref']['name']
    if k == 'IntegerLiteral':
        return n.get('macro') or str(n.get('v'))
    if k == 'CharacterLiteral':
        v = n.get('v', 0)
        return repr(chr(v)) if 32 <= v < 127 else "'\\x%02x'" % v
    if k == 'StringLiteral':
        return '"%s"' % n.get('s', '')
    if k == 'MemberExpr':
        return r(ch[0]) + ('->' if n['arrow'] else '.') + n['member']
    if k == 'ArraySubscriptExpr':
        return '%s[%s]' % (r(ch[0]), r(ch[1]))
    if k == 'UnaryOperator':
        if n.get('postfix'):
            return r(ch[0]) + n['op']
        return n['op'] + r(ch[0])
    if k in ('BinaryOperator', 'CompoundAssignOperator'):
        return '%s %s %s' % (r(ch[0]), n['op'], r(ch[1]))
    if k == 'CallExpr':
        return '%s(%s)' % (r(ch[0]), ', '.join(r(c) for c in ch[1:]))
    if k == 'UnaryExprOrTypeTraitExpr':
        if 'argType' in n:
            return 'sizeof(%s)' % n['argType']
        return 'sizeof(%s)' % r(ch[0])
    if k == 'ConditionalOperator':
        return '%s ? %s : %s' % (r(ch[0]), r(ch[1]), r(ch[2]))
    if k == 'ReturnStmt':
        return 'return ' + (r(ch[0]) if ch else '')
    if k == 'InitListExpr':
        return '{' + ', '.join(r(c) for c in ch) + '}'
    if k == 'DeclStmt':
        return '; '.join('%s %s' % (d['t'], d['name']) for d in n['decls'])
    if k == 'GotoStmt':
        return 'goto ' + n.get('label', '')
    return '<%s>' % k


def strip(n, casts=True):
    """skip parentheses and (implicit, optionally explicit) casts."""
    while n is not None and (n.k in ('ParenExpr', 'ImplicitCastExpr') or
                             (casts and n.k == 'CStyleCastExpr')):
        n = n.ch[0]
    return n
