"""Self-test of a check (thorough tier): seeded single-instance mutations must be reported with
the expected rule instance; behaviour-preserving edits must stay silent.  Each item is applied to
its own scratch copy of /repo's current tree (outside /repo and /verif, removed afterwards)."""
import json
import os
import re
import shutil
import subprocess
import sys
import tempfile
from concurrent.futures import ThreadPoolExecutor

from .facts import VERIF, REPO

sys.path.insert(0, VERIF)


def _scratch():
    d = tempfile.mkdtemp(prefix='snoopy-selftest-')
    sc = os.path.join(d, 'repo')
    subprocess.call(['rsync', '-a', '--exclude', '.git', '--exclude', '*.o', '--exclude', '*.lo', '--exclude', '.libs',
                     '--exclude', '/tests', '--exclude', '*.log', '--exclude', '*.trs', REPO + '/', sc + '/'],
                    stderr=subprocess.DEVNULL)
    return d, sc


def _swap_rows_both_arrays(sc):
    """b13: move the only_root row behind only_tty in BOTH arrays of the filter registry"""
    p = os.path.join(sc, 'src/filterregistry.c')
    s = open(p).read()
    a = '#ifdef SNOOPY_CONF_FILTER_ENABLED_only_root\n    "only_root",\n#endif\n'
    b = '#ifdef SNOOPY_CONF_FILTER_ENABLED_only_tty\n    "only_tty",\n#endif\n'
    c = '#ifdef SNOOPY_CONF_FILTER_ENABLED_only_root\n    snoopy_filter_only_root,\n#endif\n'
    d = '#ifdef SNOOPY_CONF_FILTER_ENABLED_only_tty\n    snoopy_filter_only_tty,\n#endif\n'
    if a + b not in s or c + d not in s:
        return False
    s = s.replace(a + b, b + a).replace(c + d, d + c)
    open(p, 'w').write(s)
    return True


def _run_check(pid, sc, tier='quick'):
    env = dict(os.environ, VERIF_REPO=sc)
    q = subprocess.run([os.path.join(VERIF, 'check'), pid, '--no-evidence', '--tier', tier], env=env,
                       stdout=subprocess.PIPE, stderr=subprocess.STDOUT, text=True)
    inst = re.findall(r'^\s+instance: (.*)$', q.stdout, re.M)
    return q.returncode, inst, q.stdout


def _apply_text(sc, rel, old, new):
    p = os.path.join(sc, rel)
    if not os.path.exists(p):
        return False
    s = open(p).read()
    if old not in s:
        return False
    open(p, 'w').write(s.replace(old, new, 1))
    return True


UNDECIDED = {}


def run(pid, seed=0):
    from selftest.catalogue import MUTANTS, BENIGN
    up = os.path.join(VERIF, 'selftest', 'refactorings', 'UNDECIDED.json')
    UNDECIDED.clear()
    if os.path.exists(up):
        UNDECIDED.update(json.load(open(up)))
    items = []
    for mid, props, rel, old, new, expect in MUTANTS:
        if pid in props:
            # the expected instance text belongs to the first listed property's check
            items.append(('mutant', mid, rel, old, new, expect if pid == props[0] else None, None))
    for bid, props, rel, old, new in BENIGN:
        if pid in props:
            items.append(('benign', bid, rel, old, new, None, None))
    # behaviour-preserving refactorings written by independent sub-agents (whole patches; every
    # check must stay silent on every one of them)
    rdir = os.path.join(VERIF, 'selftest', 'refactorings')
    if os.path.isdir(rdir):
        for fn in sorted(os.listdir(rdir)):
            if fn.endswith('.diff'):
                items.append(('benign', fn[:-5], None, None, None, None, os.path.join(rdir, fn)))
    # correct feature additions written by independent sub-agents (new data sources, filters, an output), each
    # switched on in the scratch config.h: every check must stay silent on them as well
    fdir = os.path.join(VERIF, 'selftest', 'features')
    if os.path.isdir(fdir):
        macros = json.load(open(os.path.join(fdir, 'MACROS.json')))
        for fn in sorted(os.listdir(fdir)):
            if fn.endswith('.diff'):
                items.append(('benign', 'feature-' + fn[:-5], None, None, None, macros.get(fn[:-5], []), os.path.join(fdir, fn)))
    # confirmed seeded changes of independent sub-agents
    rp = os.path.join(VERIF, 'seeded', 'RESULTS.json')
    if os.path.exists(rp):
        for r in json.load(open(rp))['results']:
            if not r.get('applies', True):
                continue
            hit = r.get('caught_by', {}).get(pid)
            if hit and not hit[0].startswith('ANALYSIS-BROKEN'):
                items.append(('seed', r['seed'], None, None, None, hit[0], os.path.join(
                    VERIF, 'seeded', r['seed'], 'patch.ported.diff' if r.get('ported') else 'patch.diff')))

    def one(item):
        kind, iid, rel, old, new, expect, patch = item
        d, sc = _scratch()
        try:
            if patch and iid.startswith('feature-'):
                # hunks for the tests/ directory (not copied) are skipped; the feature is switched on by hand
                subprocess.run(['patch', '-s', '-f', '-p1', '-d', sc, '-i', patch], stdout=subprocess.PIPE, stderr=subprocess.STDOUT)
                with open(os.path.join(sc, 'config.h'), 'a') as f:
                    for m in (expect or []):
                        f.write('\n#define %s 1\n' % m)
                applied = True
                expect = None
            elif patch:
                p = subprocess.run(['patch', '-s', '-p1', '-d', sc, '-i', patch], stdout=subprocess.PIPE, stderr=subprocess.STDOUT)
                applied = p.returncode == 0
            elif iid.startswith('b13-'):
                applied = _swap_rows_both_arrays(sc)
            else:
                applied = _apply_text(sc, rel, old, new)
            if not applied:
                return dict(id=iid, kind=kind, status='skipped', why='the text/patch no longer applies to the current tree')
            # ids starting with 'mv' only exist in a non-default build variant: the thorough tier's variant runs see them
            rc, inst, out = _run_check(pid, sc, 'thorough' if iid.startswith('mv') else 'quick')
            if kind == 'benign':
                if rc == 2 and pid in UNDECIDED.get(iid, ()):
                    # a listed shape the rules of this property do not follow: "not decided" is the documented outcome;
                    # a VIOLATION (exit 1) on it would still be a false alarm
                    return dict(id=iid, kind=kind, status='undecided', exit=rc, instances=inst[:4])
                ok = rc == 0
                return dict(id=iid, kind=kind, status='silent' if ok else 'FALSE-ALARM', exit=rc, instances=inst[:4])
            ok = rc == 1 and (expect is None or any(expect in i for i in inst))
            return dict(id=iid, kind=kind, status='detected' if ok else 'MISSED', exit=rc, expected=expect, instances=inst[:4])
        finally:
            shutil.rmtree(d, ignore_errors=True)

    with ThreadPoolExecutor(max_workers=8) as ex:
        results = list(ex.map(one, items))
    return results
