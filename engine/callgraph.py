"""A1: whole-program call graph with resolved indirect calls, who-may-call and
deny-list reachability with witness paths."""
from collections import deque

from .facts import AnalysisBroken, render, strip


def func_refs(node):
    """function names whose address appears in the expression tree."""
    out = []
    for n in node.walk():
        if n.k == 'DeclRefExpr' and n['ref']['kind'] == 'func':
            out.append(n['ref']['name'])
    return out


class CallSite:
    __slots__ = ('caller', 'node', 'targets', 'indirect', 'how', 'callbacks')

    def __init__(self, caller, node, targets, indirect, how):
        self.caller = caller
        self.node = node
        self.targets = targets  # list of Function or 'ext:<name>'
        self.indirect = indirect
        self.how = how
        self.callbacks = []     # program functions whose address is handed to an external callee


class CallGraph:
    def __init__(self, prog):
        self.prog = prog
        self.sites = []
        self.unresolved = []
        self.by_caller = {}
        self._param_funcs = None
        self._build()

    # ---- indirect resolution ------------------------------------------------
    def _global_init_funcs(self, gname, field=None):
        g = self.prog.global_var(gname)
        if g is None or g.init is None:
            return None
        if field is None:
            return sorted(set(func_refs(g.init)))
        # field-sensitive: struct initialisers; find index path of the field in the
        # record, collect refs at that position of every (nested) InitListExpr
        out = set()
        self._collect_field(g.init, field, out)
        return sorted(out)

    def _collect_field(self, init, field_path, out):
        # field_path: list of (record name, field name) outermost first
        def rec(node, path):
            node_s = node
            while node_s is not None and node_s.k in ('ImplicitCastExpr', 'ParenExpr', 'CStyleCastExpr'):
                node_s = node_s.ch[0]
            if node_s is None:
                return
            if not path:
                out.update(func_refs(node_s))
                return
            if node_s.k != 'InitListExpr':
                return
            ct = node_s.get('ct', '')
            if ct.rstrip().endswith(']'):
                # array initialiser: every element
                for c in node_s.ch:
                    if c is not None:
                        rec(c, path)
                return
            recname, fname = path[0]
            r = self.prog.record(recname)
            if r is not None and (ct.endswith(recname) or ct.endswith(r.get('tag') or '\0') or
                                  recname in ct):
                idx = [f['name'] for f in r['fields']].index(fname)
                chs = node_s.ch
                if r.get('union'):
                    # union initialiser: single child initialises the first named field
                    if chs:
                        rec(chs[0], path[1:])
                elif idx < len(chs):
                    rec(chs[idx], path[1:])
            else:
                for c in node_s.ch:
                    if c is not None:
                        rec(c, path)
        rec(init, field_path)

    def _param_flow(self):
        """function-pointer parameters: (callee key, param index) -> set of function
        names passed there, to a fixpoint through param-to-param forwarding."""
        if self._param_funcs is not None:
            return self._param_funcs
        direct = {}
        self._param_objs = {}   # (callee key, idx) -> {function name: Function as resolved where it was passed}
        self._passers = {}   # (callee key, idx, function name) -> set of keys of functions that pass it
        forward = []  # (callee key, idx, caller key, caller param idx)
        for f in self.prog.functions:
            for c in f.calls():
                name = c.get('callee')
                if not name:
                    continue
                tgt = self.prog.func(name, f.tu)
                if tgt is None:
                    continue
                for i, a in enumerate(c.ch[1:]):
                    s = strip(a)
                    if s is None:
                        continue
                    if s.k == 'UnaryOperator' and s['op'] == '&':
                        s = strip(s.ch[0])
                    if s.k == 'DeclRefExpr':
                        r = s['ref']
                        if r['kind'] == 'func':
                            direct.setdefault((tgt.key, i), set()).add(r['name'])
                            self._passers.setdefault((tgt.key, i, r['name']), set()).add(f.key)
                            # a static function is only visible in the translation unit that passes it
                            obj = self.prog.func(r['name'], f.tu)
                            if obj is not None:
                                self._param_objs.setdefault((tgt.key, i), {})[r['name']] = obj
                        elif r['kind'] == 'parm':
                            forward.append((tgt.key, i, f.key, r['index']))
        changed = True
        while changed:
            changed = False
            for ck, i, fk, j in forward:
                src = direct.get((fk, j), set())
                dst = direct.setdefault((ck, i), set())
                if not src <= dst:
                    dst |= src
                    changed = True
                so = self._param_objs.get((fk, j), {})
                do = self._param_objs.setdefault((ck, i), {})
                for nm, obj in so.items():
                    if nm not in do:
                        do[nm] = obj
                        changed = True
                for nm in src:
                    ps = self._passers.setdefault((ck, i, nm), set())
                    add = self._passers.get((fk, j, nm), set())
                    if not add <= ps:
                        ps |= add
                        changed = True
        self._param_funcs = direct
        return direct

    def _local_defs(self, func, decl_id):
        """expressions assigned to local/static variable decl_id inside func."""
        defs = []
        for n in func.body.walk():
            if n.k == 'BinaryOperator' and n['op'] == '=':
                lhs = strip(n.ch[0])
                if lhs is not None and lhs.k == 'DeclRefExpr' and lhs['ref']['id'] == decl_id:
                    defs.append(n.ch[1])
            elif n.k == 'DeclStmt':
                for d in n['decls']:
                    if d['id'] == decl_id and d.get('init', -1) != -1:
                        defs.append(func.nodes[d['init']])
        return defs

    def resolve_indirect(self, func, call, depth=0):
        """-> (targets list, how) or (None, reason)"""
        ce = strip(call.ch[0])
        while ce is not None and ce.k == 'UnaryOperator' and ce['op'] == '*':
            ce = strip(ce.ch[0])
        return self._resolve_expr(func, ce, depth)

    def _resolve_expr(self, func, ce, depth):
        if ce is None or depth > 4:
            return None, 'too deep'
        if ce.k == 'ArraySubscriptExpr':
            base = strip(ce.ch[0])
            if base.k == 'DeclRefExpr' and base['ref'].get('staticStorage'):
                names = self._global_init_funcs(base['ref']['name'])
                if names is not None:
                    return self._names_to_targets(names, func), 'table ' + base['ref']['name']
            return None, 'subscript of non-global'
        if ce.k == 'MemberExpr':
            # collect field path down to a global array
            path = []
            cur = ce
            while cur is not None and cur.k == 'MemberExpr':
                path.insert(0, (cur.get('record'), cur['member']))
                cur = strip(cur.ch[0])
            if cur is not None and cur.k == 'ArraySubscriptExpr':
                cur = strip(cur.ch[0])
            if cur is not None and cur.k == 'DeclRefExpr' and cur['ref'].get('staticStorage'):
                out = set()
                g = self.prog.global_var(cur['ref']['name'])
                if g is not None and g.init is not None:
                    self._collect_field(g.init, path, out)
                    return self._names_to_targets(sorted(out), func), \
                        'field %s of table %s' % ('.'.join(p[1] for p in path), cur['ref']['name'])
            return None, 'member of non-global'
        if ce.k == 'DeclRefExpr':
            r = ce['ref']
            if r['kind'] == 'func':
                return self._names_to_targets([r['name']], func), 'direct'
            if r['kind'] == 'parm':
                names = self._param_flow().get((func.key, r['index']))
                objs = self._param_objs.get((func.key, r['index']), {})
                if names:
                    return [objs.get(nm) or t for nm, t in zip(sorted(names), self._names_to_targets(sorted(names), func))], \
                        'parameter %s of %s' % (r['name'], func.name)
                return None, 'function-pointer parameter %s never bound' % r['name']
            if r['kind'] == 'var':
                defs = self._local_defs(func, r['id']) if not r.get('fileScope') else \
                    self._global_defs(r['name'])
                if not defs:
                    return None, 'variable %s has no definition' % r['name']
                targets, hows = [], []
                for d in defs:
                    s = strip(d)
                    if s.k == 'CallExpr' and s.get('callee') == 'dlsym':
                        sym = strip(s.ch[2])
                        nm = sym.get('s') if sym is not None and sym.k == 'StringLiteral' else '?'
                        targets.append('ext:dlsym:' + nm)
                        hows.append('dlsym("%s")' % nm)
                    else:
                        t, h = self._resolve_expr(func, s, depth + 1)
                        if t is None:
                            return None, h
                        targets += t
                        hows.append(h)
                return targets, '; '.join(hows)
        return None, 'unsupported callee expression %s' % render(ce)

    def _global_defs(self, name):
        defs = []
        for f in self.prog.functions:
            for n in f.body.walk():
                if n.k == 'BinaryOperator' and n['op'] == '=':
                    lhs = strip(n.ch[0])
                    if lhs is not None and lhs.k == 'DeclRefExpr' and lhs['ref']['name'] == name \
                            and lhs['ref'].get('fileScope'):
                        defs.append(n.ch[1])
        g = self.prog.global_var(name)
        if g is not None and g.init is not None:
            defs.append(g.init)
        return defs

    def _names_to_targets(self, names, func):
        out = []
        for nm in names:
            f = self.prog.func(nm, func.tu)
            out.append(f if f is not None else 'ext:' + nm)
        return out

    # ---- build ------------------------------------------------------------------
    def _build(self):
        for f in self.prog.functions:
            lst = self.by_caller.setdefault(f.key, [])
            for c in f.calls():
                name = c.get('callee')
                if name:
                    tgt = self.prog.func(name, f.tu)
                    cs = CallSite(f, c, [tgt if tgt is not None else 'ext:' + name], False, 'direct')
                    if tgt is None:
                        # functions handed to an external callee (pthread_once, pthread_atfork,
                        # qsort, ...) may be invoked by it
                        for a in c.ch[1:]:
                            sa = strip(a) if a is not None else None
                            if sa is not None and sa.k == 'UnaryOperator' and sa['op'] == '&':
                                sa = strip(sa.ch[0])
                            if sa is not None and sa.k == 'DeclRefExpr' and sa['ref']['kind'] == 'func':
                                cb = self.prog.func(sa['ref']['name'], f.tu)
                                if cb is not None:
                                    cs.callbacks.append(cb)
                else:
                    t, how = self.resolve_indirect(f, c)
                    if t is None:
                        self.unresolved.append((f, c, how))
                        cs = CallSite(f, c, [], True, 'UNRESOLVED: ' + how)
                    else:
                        cs = CallSite(f, c, t, True, how)
                self.sites.append(cs)
                lst.append(cs)

    def require_resolved(self, within=None):
        bad = [(f, c, h) for f, c, h in self.unresolved if within is None or f.key in within]
        if bad:
            f, c, h = bad[0]
            raise AnalysisBroken('unresolved indirect call %s in %s (%s): %s' % (
                render(c), f.name, c.where(), h))

    # ---- queries ------------------------------------------------------------------
    def callees(self, func):
        return self.by_caller.get(func.key, [])

    def reachable(self, roots):
        """{func key: (Function, parent key, call site)} reachable from roots."""
        seen = {}
        dq = deque()
        for r in roots:
            seen[r.key] = (r, None, None)
            dq.append(r)
        deferred = []
        while True:
            while dq:
                f = dq.popleft()
                for cs in self.callees(f):
                    for t in list(cs.targets) + list(cs.callbacks):
                        if isinstance(t, str):
                            continue
                        if t.key in seen:
                            continue
                        if cs.indirect and cs.how.startswith('parameter '):
                            # a function passed as an argument is only a target here if some function
                            # that passes it is itself reachable
                            deferred.append((f, cs, t))
                            continue
                        seen[t.key] = (t, f.key, cs)
                        dq.append(t)
            progressed = False
            rest = []
            for f, cs, t in deferred:
                if t.key in seen:
                    continue
                if self._passed_by_reachable(f, cs, t, seen):
                    seen[t.key] = (t, f.key, cs)
                    dq.append(t)
                    progressed = True
                else:
                    rest.append((f, cs, t))
            deferred = rest
            if not progressed:
                break
        return seen

    def _passed_by_reachable(self, f, cs, t, seen):
        ce = strip(cs.node.ch[0])
        while ce is not None and ce.k == 'UnaryOperator' and ce['op'] == '*':
            ce = strip(ce.ch[0])
        if ce is None or ce.k != 'DeclRefExpr' or ce['ref']['kind'] != 'parm':
            return True
        self._param_flow()
        ps = self._passers.get((f.key, ce['ref']['index'], t.name), None)
        if ps is None:
            return True
        return any(k in seen for k in ps)

    def path_to(self, reach, key):
        chain = []
        while key is not None:
            f, parent, cs = reach[key]
            chain.append((f, cs))
            key = parent
        chain.reverse()
        return chain

    def external_calls(self, reach):
        """[(ext name, CallSite)] for every call to a function without a body in the
        program, made from a reachable function."""
        out = []
        for key, (f, _, _) in reach.items():
            for cs in self.callees(f):
                for t in cs.targets:
                    if isinstance(t, str):
                        out.append((t[4:], cs))
        return out

    def callers_of(self, name):
        out = []
        for cs in self.sites:
            for t in cs.targets:
                if (isinstance(t, str) and t == 'ext:' + name) or \
                        (not isinstance(t, str) and t.name == name):
                    out.append(cs)
        return out

    def describe_path(self, reach, key):
        parts = []
        for f, cs in self.path_to(reach, key):
            if cs is None:
                parts.append(f.name)
            else:
                parts.append('-> %s [%s%s]' % (f.name, cs.node.where(),
                                               ', via ' + cs.how if cs.indirect else ''))
        return ' '.join(parts)
