#!/bin/sh
# setup_cmd: build the fact extractor (offline, one clang++ invocation)
set -e
cd "$(dirname "$0")"
mkdir -p build
clang++ $(llvm-config-14 --cxxflags) -O1 -fno-rtti engine/extractor/snoopfacts.cc -o build/snoopfacts \
    /usr/lib/llvm-14/lib/libclang-cpp.so.14 /usr/lib/llvm-14/lib/libLLVM-14.so
echo "built build/snoopfacts"
